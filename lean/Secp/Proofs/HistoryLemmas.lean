import Secp.Proofs.Ladder
import Secp.Proofs.HashToGroup
import Secp.Proofs.BitsSpec
/-!
# Per-operation refinement lemmas for the history theorem (C10): abstract affine points of the results
-/
open Spec Spec.Rfc9380 WeierstrassCurve

noncomputable section

abbrev aP (P : Pt L4) : APoint := affPtG limbLawful P
abbrev VP (P : Pt L4) : Prop := PtValid limbLawful P

theorem aP_identity : aP (Hand.Element.identity FL) = none := by
  show affPtG limbLawful _ = none
  unfold affPtG Hand.Element.identity
  rw [if_pos limbLawful.val_zero]

theorem iota_aP (P : Pt L4) (hP : VP P) : iota (aP P) = toGp limbLawful curveOK_Fp P := (toGp_eq_iota limbLawful P hP).symm

/-- an abstract point is determined by the group element: used to transport every group-level theorem -/
theorem aP_of_group (R : Pt L4) (hR : VP R) (a : APoint) (ha : SpecPt a) (h : toGp limbLawful curveOK_Fp R = iota a) : aP R = a :=
  iota_inj _ _ (affPtG_specPt limbLawful R hR) ha (by rw [iota_aP R hR, h])

theorem iota_pneg (a : APoint) (ha : SpecPt a) : SpecPt (pneg a) ∧ iota (pneg a) = - iota a := by
  match a, ha with
  | none, _ => exact ⟨trivial, by simp [pneg, iota]⟩
  | some (x, y), ⟨hx, hy, e⟩ =>
    have e' : ((fneg y : Nat) : Fp) ^ 2 = (x : Fp) ^ 3 + 7 := by rw [cast_fneg, neg_sq]; exact e
    refine ⟨⟨hx, fneg_lt _, e'⟩, ?_⟩
    show mkPt 7 curveOK_Fp _ _ = - mkPt 7 curveOK_Fp _ _
    rw [mkPt_eq curveOK_Fp e', mkPt_eq curveOK_Fp e, Affine.Point.neg_some]
    congr 1
    simp [Affine.negY, Wb, cast_fneg]

theorem iota_smul (k : Nat) (a : APoint) (ha : SpecPt a) : SpecPt (smul k a) ∧ iota (smul k a) = k • iota a := by
  induction k using Nat.strong_induction_on with
  | _ k ih =>
    cases k with
    | zero =>
      have e : smul 0 a = none := by unfold smul; rfl
      rw [e]; exact ⟨trivial, by simp [iota]⟩
    | succ k =>
      unfold smul
      simp only
      obtain ⟨sh, ih1⟩ := ih ((k + 1) / 2) (by omega)
      obtain ⟨sd, id⟩ := padd_spec _ _ sh sh
      by_cases hodd : (k + 1) % 2 = 1
      · rw [if_pos hodd]
        obtain ⟨ss, is⟩ := padd_spec _ _ sd ha
        refine ⟨ss, ?_⟩
        rw [is, id, ih1]
        have : k + 1 = (k + 1) / 2 + (k + 1) / 2 + 1 := by omega
        conv_rhs => rw [this]
        rw [add_smul, add_smul, one_smul]
      · rw [if_neg hodd]
        refine ⟨sd, ?_⟩
        rw [id, ih1]
        have : k + 1 = (k + 1) / 2 + (k + 1) / 2 := by omega
        conv_rhs => rw [this]
        rw [add_smul]

theorem aP_base : VP Hand.ElementL.base ∧ aP Hand.ElementL.base = G := by
  refine ⟨base_valid, ?_⟩
  have hx : limbVal Hand.ElementL.base.x = ((0x79be667ef9dcbbac55a06295ce870b07029bfcdb2dce28d959f2815b16f81798 : Nat) : Fp) :=
    limbVal_of_mont _ _ (by decide)
  have hy : limbVal Hand.ElementL.base.y = ((0x483ada7726a3c4655da4fbfc0e1108a8fd17b448a68554199c47d08ffb10d4b8 : Nat) : Fp) :=
    limbVal_of_mont _ _ (by decide)
  have hz : limbVal Hand.ElementL.base.z = 1 := limbLawful.val_one
  show affPtG limbLawful _ = _
  unfold affPtG
  have e1 : limbLawful.val Hand.ElementL.base.z = 1 := hz
  rw [e1, if_neg one_ne_zero, div_one, div_one]
  have e2 : limbLawful.val Hand.ElementL.base.x = _ := hx
  have e3 : limbLawful.val Hand.ElementL.base.y = _ := hy
  rw [e2, e3, val_cast_of_lt _ (by decide), val_cast_of_lt _ (by decide)]
  rfl

theorem aP_add (P Q : Pt L4) (hP : VP P) (hQ : VP Q) :
    VP (Hand.Element.add FL P (some Q)) ∧ aP (Hand.Element.add FL P (some Q)) = padd (aP P) (aP Q) :=
  add_affPtG limbLawful limb_curveConsts P Q hP hQ

theorem aP_addSelf (P : Pt L4) (hP : VP P) :
    VP (Hand.Element.addSelf FL P) ∧ aP (Hand.Element.addSelf FL P) = padd (aP P) (aP P) := by
  obtain ⟨hv, hg⟩ := addSelf_correct limbLawful curveOK_Fp limb_curveConsts P hP
  have sP := affPtG_specPt limbLawful P hP
  obtain ⟨sS, hS⟩ := padd_spec _ _ sP sP
  exact ⟨hv, aP_of_group _ hv _ sS (by rw [hg, hS, iota_aP P hP])⟩

theorem aP_double (P : Pt L4) (hP : VP P) :
    VP (Hand.Element.double FL P) ∧ aP (Hand.Element.double FL P) = padd (aP P) (aP P) := by
  obtain ⟨hv, hg⟩ := double_correct limbLawful curveOK_Fp limb_curveConsts P hP
  have sP := affPtG_specPt limbLawful P hP
  obtain ⟨sS, hS⟩ := padd_spec _ _ sP sP
  exact ⟨hv, aP_of_group _ hv _ sS (by rw [hg, hS, iota_aP P hP])⟩

theorem aP_negate (P : Pt L4) (hP : VP P) :
    VP (Hand.Element.negate FL P) ∧ aP (Hand.Element.negate FL P) = pneg (aP P) := by
  obtain ⟨hv, hg⟩ := negate_correct limbLawful curveOK_Fp P hP
  obtain ⟨sN, hN⟩ := iota_pneg _ (affPtG_specPt limbLawful P hP)
  exact ⟨hv, aP_of_group _ hv _ sN (by rw [hg, hN, iota_aP P hP])⟩

theorem aP_subtract (P Q : Pt L4) (hP : VP P) (hQ : VP Q) :
    VP (Hand.Element.subtract FL P (some Q)) ∧ aP (Hand.Element.subtract FL P (some Q)) = psub (aP P) (aP Q) := by
  obtain ⟨hv, hg⟩ := subtract_correct limbLawful curveOK_Fp limb_curveConsts P Q hP hQ
  have sP := affPtG_specPt limbLawful P hP
  obtain ⟨sN, hN⟩ := iota_pneg _ (affPtG_specPt limbLawful Q hQ)
  obtain ⟨sS, hS⟩ := padd_spec _ _ sP sN
  refine ⟨hv, aP_of_group _ hv _ sS ?_⟩
  unfold psub
  rw [hg, hS, hN, iota_aP P hP, iota_aP Q hQ, sub_eq_add_neg]

theorem aP_multiply (P : Pt L4) (hP : VP P) (s : L4) (hs : sOk s) :
    VP (Hand.Element.multiply FL P (some s)) ∧ aP (Hand.Element.multiply FL P (some s)) = smul (sVal s).val (aP P) := by
  have hone : Hand.Scalar.isOne s = true → (sVal s).val = 1 := fun h => by
    rw [(sc_isOne_iff s hs).mp h]; exact ZMod.val_one N
  obtain ⟨hv, hg⟩ := multiplyCore_correct limbLawful curveOK_Fp limb_curveConsts P hP _ _ (sVal s).val hone (bits_spec s hs).2.2
  have hm : Hand.Element.multiply FL P (some s) = Hand.Element.multiplyCore FL P (Hand.Scalar.isOne s) (Hand.Scalar.bits s) := rfl
  obtain ⟨sM, hM⟩ := iota_smul (sVal s).val _ (affPtG_specPt limbLawful P hP)
  rw [hm]
  exact ⟨hv, aP_of_group _ hv _ sM (by rw [hg, hM, iota_aP P hP])⟩

end
