import Secp.Proofs.Lawful
import Secp.Proofs.RCB
import Secp.Gen.Curve
/-!
# From the generated step sequences to the Renes–Costello–Batina polynomials

For every lawful operations record, the *generated* `addProjectiveComplete` (both aliasing patterns) and
`doubleProjectiveComplete` produce canonical coordinates whose values are the polynomials `RX RY RZ`
(`DX DY DZ`) of `Secp.Proofs.RCB` at `b = 7`.
-/

variable {α : Type} {F : FieldOps α} {K : Type} [Field K] (L : Lawful F K)

/-- the source constants the curve code embeds, as facts about the record -/
structure CurveConsts : Prop where
  ok_b3 : L.ok (F.ofMont 90194333733 0 0 0)
  val_b3 : L.val (F.ofMont 90194333733 0 0 0) = 21
  ok_b : L.ok (F.ofMont 30064777911 0 0 0)
  val_b : L.val (F.ofMont 30064777911 0 0 0) = 7

def PtOk (P : Pt α) : Prop := L.ok P.x ∧ L.ok P.y ∧ L.ok P.z
def vpt (P : Pt α) : PP K := ⟨L.val P.x, L.val P.y, L.val P.z⟩

macro "ok_tac" L:term : tactic =>
  `(tactic| repeat' (first | assumption | apply ($L).ok_add | apply ($L).ok_sub | apply ($L).ok_mul | apply ($L).ok_square | apply ($L).ok_neg))

theorem add_eu_v_bridge (hc : CurveConsts L) (P Q : Pt α) (hP : PtOk L P) (hQ : PtOk L Q) :
    PtOk L (Curve.addProjectiveComplete_eu_v F P Q) ∧
    vpt L (Curve.addProjectiveComplete_eu_v F P Q) = rcb 7 (vpt L P) (vpt L Q) := by
  obtain ⟨hux, huy, huz⟩ := hP
  obtain ⟨hvx, hvy, hvz⟩ := hQ
  have hb := hc.ok_b3
  have hbv := hc.val_b3
  simp only [Curve.addProjectiveComplete_eu_v, PtOk, vpt, rcb, RX, RY, RZ, PP.mk.injEq]
  refine ⟨⟨?_, ?_, ?_⟩, ?_, ?_, ?_⟩
  · ok_tac L
  · ok_tac L
  · ok_tac L
  · simp (disch := ok_tac L) only [L.val_add, L.val_sub, L.val_mul, hbv]
    ring
  · simp (disch := ok_tac L) only [L.val_add, L.val_sub, L.val_mul, hbv]
    ring
  · simp (disch := ok_tac L) only [L.val_add, L.val_sub, L.val_mul, hbv]
    ring

theorem add_euv_bridge (hc : CurveConsts L) (P : Pt α) (hP : PtOk L P) :
    PtOk L (Curve.addProjectiveComplete_euv F P) ∧
    vpt L (Curve.addProjectiveComplete_euv F P) = rcb 7 (vpt L P) (vpt L P) := by
  obtain ⟨hux, huy, huz⟩ := hP
  have hb := hc.ok_b3
  have hbv := hc.val_b3
  simp only [Curve.addProjectiveComplete_euv, PtOk, vpt, rcb, RX, RY, RZ, PP.mk.injEq]
  refine ⟨⟨?_, ?_, ?_⟩, ?_, ?_, ?_⟩
  · ok_tac L
  · ok_tac L
  · ok_tac L
  · simp (disch := ok_tac L) only [L.val_add, L.val_sub, L.val_mul, hbv]
    ring
  · simp (disch := ok_tac L) only [L.val_add, L.val_sub, L.val_mul, hbv]
    ring
  · simp (disch := ok_tac L) only [L.val_add, L.val_sub, L.val_mul, hbv]
    ring

theorem double_bridge (hc : CurveConsts L) (P : Pt α) (hP : PtOk L P) :
    PtOk L (Curve.doubleProjectiveComplete_eu F P) ∧
    vpt L (Curve.doubleProjectiveComplete_eu F P) = dbl 7 (vpt L P) := by
  obtain ⟨hux, huy, huz⟩ := hP
  have hb := hc.ok_b3
  have hbv := hc.val_b3
  simp only [Curve.doubleProjectiveComplete_eu, PtOk, vpt, dbl, DX, DY, DZ, PP.mk.injEq]
  refine ⟨⟨?_, ?_, ?_⟩, ?_, ?_, ?_⟩
  · ok_tac L
  · ok_tac L
  · ok_tac L
  · simp (disch := ok_tac L) only [L.val_add, L.val_sub, L.val_mul, L.val_square, hbv]
    ring
  · simp (disch := ok_tac L) only [L.val_add, L.val_sub, L.val_mul, L.val_square, hbv]
    ring
  · simp (disch := ok_tac L) only [L.val_add, L.val_sub, L.val_mul, L.val_square, hbv]
    ring

theorem negate_bridge (P : Pt α) (hP : PtOk L P) :
    PtOk L (Curve.negate F P) ∧ vpt L (Curve.negate F P) = ⟨L.val P.x, - L.val P.y, L.val P.z⟩ := by
  obtain ⟨hx, hy, hz⟩ := hP
  refine ⟨⟨hx, L.ok_neg hy, hz⟩, ?_⟩
  simp only [Curve.negate, vpt, L.val_neg hy]
