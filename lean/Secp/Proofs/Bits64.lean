import Secp.Proofs.PrimSpec
/-!
# The bit tricks `IsNonZero`, `IsZero`, `IsEqual`, and the limb-wise comparisons (kernel-only proofs, no `bv_decide`)
-/



theorem shr63_lt (x : Nat) (h : x < W) : x >>> 63 = if x < 2^63 then 0 else 1 := by
  rw [Nat.shiftRight_eq_div_pow]
  simp only [W] at h
  split <;> omega

theorem lor_lt_W (a b : Nat) (ha : a < W) (hb : b < W) : Nat.lor a b < W := Nat.or_lt_two_pow ha hb

theorem xor_lt_W (a b : Nat) (ha : a < W) (hb : b < W) : Nat.xor a b < W := Nat.xor_lt_two_pow ha hb

theorem lor_eq_zero (a b : Nat) : Nat.lor a b = 0 ↔ a = 0 ∧ b = 0 := Nat.or_eq_zero_iff

theorem xor_eq_zero (a b : Nat) : Nat.xor a b = 0 ↔ a = b := by
  constructor
  · intro h
    have h' : a ^^^ b = 0 := h
    apply Nat.eq_of_testBit_eq
    intro i
    have := congrArg (fun x => x.testBit i) h'
    simpa [Nat.testBit_xor] using this
  · rintro rfl; exact Nat.xor_self a
