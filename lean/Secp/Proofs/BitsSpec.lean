import Secp.Proofs.ScalarCmp
import Secp.Proofs.EvalBits
/-!
# `Scalar.Bits` is the binary expansion of the canonical value (C14)
-/
open Spec

theorem evalMsb_acc (L : List Nat) (m : Nat) : evalMsb m L = m * 2 ^ L.length + evalMsb 0 L := by
  induction L generalizing m with
  | nil => simp [evalMsb]
  | cons b bs ih =>
    simp only [evalMsb, List.length_cons]
    rw [ih (2 * m + bitVal b), ih (2 * 0 + bitVal b)]
    ring

theorem evalBits_append_single (l : List Nat) (b : Nat) : evalBits (l ++ [b]) = evalBits l + bitVal b * 2 ^ l.length := by
  unfold evalBits
  rw [List.reverse_append, List.reverse_singleton, List.singleton_append]
  simp only [evalMsb]
  rw [evalMsb_acc, List.length_reverse]
  ring

theorem bitVal_bit (x : Nat) : bitVal (x % 2) = x % 2 := by
  unfold bitVal
  rcases Nat.mod_two_eq_zero_or_one x with h | h <;> simp [h]

/-- the little-endian list of the low `k` bits of `v` denotes `v mod 2^k` -/
theorem evalBits_expansion (k v : Nat) : evalBits ((List.range k).map (fun i => v / 2 ^ i % 2)) = v % 2 ^ k := by
  induction k with
  | zero => simp [evalBits, evalMsb, Nat.mod_one]
  | succ k ih =>
    rw [List.range_succ, List.map_append, List.map_singleton, evalBits_append_single, ih, bitVal_bit]
    simp only [List.length_map, List.length_range]
    rw [Nat.mod_pow_succ]
    ring

theorem low_bits (l H r : Nat) (hr : r < 64) : (l + W * H) / 2 ^ r % 2 = l / 2 ^ r % 2 := by
  have hW : W = 2 ^ r * (2 * 2 ^ (63 - r)) := by
    have : (64 : Nat) = r + (1 + (63 - r)) := by omega
    show 2 ^ 64 = _
    rw [← pow_succ', ← pow_add]
    congr 1
    omega
  rw [hW, mul_assoc, Nat.add_mul_div_left _ _ (Nat.two_pow_pos r), mul_assoc]
  rw [Nat.add_mul_mod_self_left]

theorem div_split (A X k : Nat) (hA : A < k) : (A + k * X) / k = X := by
  have hk : 0 < k := by omega
  rw [Nat.add_mul_div_left _ _ hk, Nat.div_eq_of_lt hA, Nat.zero_add]

/-- bit `i` of a four-limb number, read off the limb `i / 64` -/
theorem limb_bit (n : L4) (hn : n.ok) (i : Nat) (hi : i < 256) :
    Nat.land (Hand.Scalar.limb n (i / 64) >>> (i % 64)) 1 = n.eval / 2 ^ i % 2 := by
  obtain ⟨n0, n1, n2, n3⟩ := hn
  have hr : i % 64 < 64 := Nat.mod_lt _ (by norm_num)
  show (Hand.Scalar.limb n (i / 64) >>> (i % 64)) &&& 1 = _
  rw [Nat.and_one_is_mod, Nat.shiftRight_eq_div_pow]
  have hi' : i = 64 * (i / 64) + i % 64 := (Nat.div_add_mod i 64).symm
  have hj : i / 64 < 4 := by omega
  have hWpow : ∀ j, 2 ^ (64 * j) = W ^ j := by intro j; show _ = (2 ^ 64) ^ j; rw [pow_mul]
  have key : ∀ (j : Nat) (A H : Nat), A < W ^ j → n.eval = A + W ^ j * (Hand.Scalar.limb n j + W * H) →
      n.eval / 2 ^ (64 * j + i % 64) % 2 = Hand.Scalar.limb n j / 2 ^ (i % 64) % 2 := by
    intro j A H hA he
    rw [pow_add, ← Nat.div_div_eq_div_mul, hWpow, he, div_split _ _ _ hA, low_bits _ _ _ hr]
  rw [hi']
  have hdiv : (64 * (i / 64) + i % 64) / 64 = i / 64 := by omega
  have hmod : (64 * (i / 64) + i % 64) % 64 = i % 64 := by omega
  rw [hdiv, hmod]
  symm
  have hW1 : W ^ 1 = W := pow_one W
  interval_cases hq : i / 64
  · exact key 0 0 (n.l1 + W * n.l2 + W^2 * n.l3) (by simp) (by unfold L4.eval Hand.Scalar.limb; simp only [pow_zero, one_mul, zero_add]; ring)
  · exact key 1 n.l0 (n.l2 + W * n.l3) (by rw [hW1]; exact n0) (by unfold L4.eval Hand.Scalar.limb; ring)
  · exact key 2 (n.l0 + W * n.l1) n.l3 (by simp only [W] at *; omega) (by unfold L4.eval Hand.Scalar.limb; ring)
  · exact key 3 (n.l0 + W * n.l1 + W^2 * n.l2) 0 (by simp only [W] at *; omega) (by unfold L4.eval Hand.Scalar.limb; ring)

theorem bound_eq : Hand.Scalar.bitsLoopBound = 256 := by decide

/-- the bit loop on canonical limbs `n` is the binary expansion of `n.eval` -/
theorem bitsOf_spec (n : L4) (hn : n.ok) :
    Hand.Scalar.bitsOf n = (List.range 256).map (fun i => n.eval / 2 ^ i % 2) := by
  unfold Hand.Scalar.bitsOf
  apply List.map_congr_left
  intro i hi
  have hi' : i < 256 := List.mem_range.mp hi
  rw [bound_eq, if_pos hi', limb_bit n hn i hi']

theorem bitsOf_full (n : L4) (hn : n.ok) (v : Nat) (hv : n.eval = v) (hlt : v < 2 ^ 256) :
    (Hand.Scalar.bitsOf n).length = 256 ∧
    (∀ i, i < 256 → (Hand.Scalar.bitsOf n).getD i 2 = v / 2 ^ i % 2) ∧
    evalBits (Hand.Scalar.bitsOf n) = v := by
  rw [bitsOf_spec n hn, hv]
  refine ⟨by simp, ?_, ?_⟩
  · intro i hi
    simp [List.getD, hi]
  · rw [evalBits_expansion]
    exact Nat.mod_eq_of_lt hlt

/-- **C14**: 256 entries, entry `i` is bit `i` of the canonical value, and the bits sum to the value -/
theorem bits_spec (s : L4) (hs : sOk s) :
    (Hand.Scalar.bits s).length = 256 ∧
    (∀ i, i < 256 → (Hand.Scalar.bits s).getD i 2 = (sVal s).val / 2 ^ i % 2) ∧
    evalBits (Hand.Scalar.bits s) = (sVal s).val :=
  bitsOf_full (FiatScalar.fromMontgomery s) (s_fromMont hs.1).1 (sVal s).val (s_fromMont hs.1).2
    (Nat.lt_trans (sVal s).val_lt (by decide))
