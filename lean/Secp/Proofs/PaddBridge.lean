import Secp.Proofs.SpecPt
import Secp.Proofs.MapToCurve
/-!
# The specification's affine chord-and-tangent addition `Spec.padd` is the group law
-/
open Spec WeierstrassCurve

noncomputable section

/-- the group element denoted by a specification point -/
def iota : APoint → (Wb (7 : Fp)).Point
  | none => 0
  | some (x, y) => mkPt 7 curveOK_Fp (x : Fp) (y : Fp)

theorem mkPt_add_ne (x1 y1 x2 y2 : Fp) (e1 : y1 ^ 2 = x1 ^ 3 + 7) (e2 : y2 ^ 2 = x2 ^ 3 + 7) (hx : x1 ≠ x2) :
    ∃ h3 : (((y2 - y1) / (x2 - x1)) * (x1 - (((y2 - y1) / (x2 - x1)) ^ 2 - x1 - x2)) - y1) ^ 2 =
        (((y2 - y1) / (x2 - x1)) ^ 2 - x1 - x2) ^ 3 + 7,
      mkPt 7 curveOK_Fp x1 y1 + mkPt 7 curveOK_Fp x2 y2 =
        mkPt 7 curveOK_Fp (((y2 - y1) / (x2 - x1)) ^ 2 - x1 - x2)
          (((y2 - y1) / (x2 - x1)) * (x1 - (((y2 - y1) / (x2 - x1)) ^ 2 - x1 - x2)) - y1) := by
  have n1 := nonsing_of curveOK_Fp e1
  have n2 := nonsing_of curveOK_Fp e2
  have hs : (Wb (7 : Fp)).slope x1 x2 y1 y2 = (y2 - y1) / (x2 - x1) := by
    rw [Affine.slope_of_X_ne hx]
    have h1 : x1 - x2 ≠ 0 := sub_ne_zero.mpr hx
    have h2 : x2 - x1 ≠ 0 := sub_ne_zero.mpr (Ne.symm hx)
    field_simp
    ring
  have hns := Affine.nonsingular_add n1 n2 (fun hxy => hx hxy.left)
  rw [hs] at hns
  have hX3 : (Wb (7 : Fp)).addX x1 x2 ((y2 - y1) / (x2 - x1)) = ((y2 - y1) / (x2 - x1)) ^ 2 - x1 - x2 := by
    simp [Affine.addX, Wb]
  have hY3 : (Wb (7 : Fp)).addY x1 x2 y1 ((y2 - y1) / (x2 - x1)) =
      ((y2 - y1) / (x2 - x1)) * (x1 - (((y2 - y1) / (x2 - x1)) ^ 2 - x1 - x2)) - y1 := by
    simp [Affine.addY, Affine.negAddY, Affine.negY, Affine.addX, Wb]; ring
  rw [hX3, hY3] at hns
  have hon := (eqn_iff _ _ _).mp hns.1
  refine ⟨hon, ?_⟩
  rw [mkPt_eq curveOK_Fp e1, mkPt_eq curveOK_Fp e2, mkPt_eq curveOK_Fp hon, Affine.Point.add_of_X_ne hx]
  congr 1 <;> simp only [hs, hX3, hY3]

theorem mkPt_double (x y : Fp) (e : y ^ 2 = x ^ 3 + 7) :
    ∃ h3 : ((3 * (x * x) / (2 * y)) * (x - ((3 * (x * x) / (2 * y)) ^ 2 - x - x)) - y) ^ 2 =
        ((3 * (x * x) / (2 * y)) ^ 2 - x - x) ^ 3 + 7,
      mkPt 7 curveOK_Fp x y + mkPt 7 curveOK_Fp x y =
        mkPt 7 curveOK_Fp ((3 * (x * x) / (2 * y)) ^ 2 - x - x)
          ((3 * (x * x) / (2 * y)) * (x - ((3 * (x * x) / (2 * y)) ^ 2 - x - x)) - y) := by
  have n1 := nonsing_of curveOK_Fp e
  have hy : y ≠ 0 := y_ne_zero curveOK_Fp e
  have h2 : (2 : Fp) ≠ 0 := curveOK_Fp.h2
  have hyn : y ≠ (Wb (7 : Fp)).negY x y := by
    simp only [Affine.negY, Wb]
    intro h
    have : (2 : Fp) * y = 0 := by linear_combination h
    rcases mul_eq_zero.mp this with h' | h'
    · exact h2 h'
    · exact hy h'
  have hs : (Wb (7 : Fp)).slope x x y y = 3 * (x * x) / (2 * y) := by
    rw [Affine.slope_of_Y_ne rfl hyn]
    simp only [Affine.negY, Wb]
    have hden : y - (-y - 0 * x - 0) = 2 * y := by ring
    rw [hden]
    congr 1
    ring
  have hns := Affine.nonsingular_add n1 n1 (fun hxy => hyn hxy.right)
  rw [hs] at hns
  have hX3 : (Wb (7 : Fp)).addX x x (3 * (x * x) / (2 * y)) = (3 * (x * x) / (2 * y)) ^ 2 - x - x := by
    simp [Affine.addX, Wb]
  have hY3 : (Wb (7 : Fp)).addY x x y (3 * (x * x) / (2 * y)) =
      (3 * (x * x) / (2 * y)) * (x - ((3 * (x * x) / (2 * y)) ^ 2 - x - x)) - y := by
    simp [Affine.addY, Affine.negAddY, Affine.negY, Affine.addX, Wb]; ring
  rw [hX3, hY3] at hns
  have hon := (eqn_iff _ _ _).mp hns.1
  refine ⟨hon, ?_⟩
  rw [mkPt_eq curveOK_Fp e, mkPt_eq curveOK_Fp hon, Affine.Point.add_self_of_Y_ne hyn]
  congr 1 <;> simp only [hs, hX3, hY3]

theorem mkPt_add_neg (x y : Fp) (e : y ^ 2 = x ^ 3 + 7) :
    mkPt 7 curveOK_Fp x y + mkPt 7 curveOK_Fp x (-y) = 0 := by
  have e' : (-y) ^ 2 = x ^ 3 + 7 := by rw [neg_sq]; exact e
  rw [mkPt_eq curveOK_Fp e, mkPt_eq curveOK_Fp e']
  apply Affine.Point.add_of_Y_eq rfl
  simp [Affine.negY, Wb]

/-- **`padd` is the group law**, and specification points are closed under it -/
theorem padd_spec (a b : APoint) (ha : SpecPt a) (hb : SpecPt b) :
    SpecPt (padd a b) ∧ iota (padd a b) = iota a + iota b := by
  match a, b, ha, hb with
  | none, b, _, hb => exact ⟨by simpa [padd] using hb, by simp [padd, iota]⟩
  | some (x1, y1), none, ha, _ => exact ⟨by simpa [padd] using ha, by simp [padd, iota]⟩
  | some (x1, y1), some (x2, y2), ⟨hx1, hy1, e1⟩, ⟨hx2, hy2, e2⟩ =>
    unfold padd
    simp only
    by_cases hx : x1 = x2
    · subst hx
      rw [if_pos rfl]
      by_cases hy : y1 = y2 ∧ y1 ≠ 0
      · obtain ⟨hyy, _⟩ := hy
        subst hyy
        rw [if_pos ⟨rfl, by assumption⟩]
        obtain ⟨hon, hadd⟩ := mkPt_double (x1 : Fp) (y1 : Fp) e1
        have cl : ((fdiv (fmul 3 (fmul x1 x1)) (fmul 2 y1) : Nat) : Fp) = 3 * ((x1 : Fp) * (x1 : Fp)) / (2 * (y1 : Fp)) := by
          rw [cast_fdiv, cast_fmul, cast_fmul, cast_fmul]; simp
        set l := fdiv (fmul 3 (fmul x1 x1)) (fmul 2 y1) with hl
        have cx3 : ((fsub (fsub (fmul l l) x1) x1 : Nat) : Fp) = (3 * ((x1 : Fp) * (x1 : Fp)) / (2 * (y1 : Fp))) ^ 2 - x1 - x1 := by
          rw [cast_fsub, cast_fsub, cast_fmul, cl]; ring
        have cy3 : ((fsub (fmul l (fsub x1 (fsub (fsub (fmul l l) x1) x1))) y1 : Nat) : Fp) =
            (3 * ((x1 : Fp) * (x1 : Fp)) / (2 * (y1 : Fp))) *
              (x1 - ((3 * ((x1 : Fp) * (x1 : Fp)) / (2 * (y1 : Fp))) ^ 2 - x1 - x1)) - y1 := by
          rw [cast_fsub, cast_fmul, cast_fsub, cx3, cl]
        refine ⟨⟨fsub_lt _ _, fsub_lt _ _, by rw [cx3, cy3]; exact hon⟩, ?_⟩
        show mkPt 7 curveOK_Fp _ _ = mkPt 7 curveOK_Fp _ _ + mkPt 7 curveOK_Fp _ _
        rw [cx3, cy3, hadd]
      · rw [if_neg hy]
        refine ⟨trivial, ?_⟩
        show (0 : (Wb (7 : Fp)).Point) = mkPt 7 curveOK_Fp _ _ + mkPt 7 curveOK_Fp _ _
        have hy1ne : (y1 : Fp) ≠ 0 := y_ne_zero curveOK_Fp e1
        have hne : y1 ≠ y2 := by
          intro h
          apply hy
          refine ⟨h, ?_⟩
          intro h0
          apply hy1ne
          rw [h0]; simp
        have hneg : (y2 : Fp) = - (y1 : Fp) := by
          have hsq : ((y2 : Fp) - y1) * ((y2 : Fp) + y1) = 0 := by linear_combination e2 - e1
          rcases mul_eq_zero.mp hsq with h | h
          · exfalso; apply hne
            exact (cast_inj_of_lt _ _ hy2 hy1 (by linear_combination h)).symm
          · linear_combination h
        rw [hneg, mkPt_add_neg _ _ e1]
    · rw [if_neg hx]
      have hxF : (x1 : Fp) ≠ (x2 : Fp) := fun h => hx (cast_inj_of_lt _ _ hx1 hx2 h)
      obtain ⟨hon, hadd⟩ := mkPt_add_ne (x1 : Fp) (y1 : Fp) (x2 : Fp) (y2 : Fp) e1 e2 hxF
      have cl : ((fdiv (fsub y2 y1) (fsub x2 x1) : Nat) : Fp) = ((y2 : Fp) - y1) / ((x2 : Fp) - x1) := by
        rw [cast_fdiv, cast_fsub, cast_fsub]
      set l := fdiv (fsub y2 y1) (fsub x2 x1) with hl
      have cx3 : ((fsub (fsub (fmul l l) x1) x2 : Nat) : Fp) = (((y2 : Fp) - y1) / ((x2 : Fp) - x1)) ^ 2 - x1 - x2 := by
        rw [cast_fsub, cast_fsub, cast_fmul, cl]; ring
      have cy3 : ((fsub (fmul l (fsub x1 (fsub (fsub (fmul l l) x1) x2))) y1 : Nat) : Fp) =
          (((y2 : Fp) - y1) / ((x2 : Fp) - x1)) * (x1 - ((((y2 : Fp) - y1) / ((x2 : Fp) - x1)) ^ 2 - x1 - x2)) - y1 := by
        rw [cast_fsub, cast_fmul, cast_fsub, cx3, cl]
      refine ⟨⟨fsub_lt _ _, fsub_lt _ _, by rw [cx3, cy3]; exact hon⟩, ?_⟩
      show mkPt 7 curveOK_Fp _ _ = mkPt 7 curveOK_Fp _ _ + mkPt 7 curveOK_Fp _ _
      rw [cx3, cy3, hadd]

/-- `iota` is injective on specification points -/
theorem iota_inj (a b : APoint) (ha : SpecPt a) (hb : SpecPt b) (h : iota a = iota b) : a = b := by
  match a, b, ha, hb with
  | none, none, _, _ => rfl
  | none, some (x, y), _, ⟨_, _, e⟩ =>
    simp only [iota, mkPt_eq curveOK_Fp e] at h
    exact absurd h (by simp)
  | some (x, y), none, ⟨_, _, e⟩, _ =>
    simp only [iota, mkPt_eq curveOK_Fp e] at h
    exact absurd h (by simp)
  | some (x1, y1), some (x2, y2), ⟨hx1, hy1, e1⟩, ⟨hx2, hy2, e2⟩ =>
    simp only [iota, mkPt_eq curveOK_Fp e1, mkPt_eq curveOK_Fp e2, Affine.Point.some.injEq] at h
    rw [cast_inj_of_lt _ _ hx1 hx2 h.1, cast_inj_of_lt _ _ hy1 hy2 h.2]

end
