import Secp.Proofs.LimbLawful
import Secp.Spec.Fp
/-! # The abstract affine point of a projective limb triple -/
open Spec

abbrev FL := Hand.limbOps

/-- the abstract affine point denoted by a projective triple -/
noncomputable def affPt (P : Pt L4) : APoint :=
  if limbVal P.z = 0 then none else some ((limbVal P.x / limbVal P.z).val, (limbVal P.y / limbVal P.z).val)

