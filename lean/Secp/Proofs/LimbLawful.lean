import Secp.Proofs.WrapperTiesP
import Secp.Proofs.Lawful
import Secp.Proofs.AddSubP
import Secp.Proofs.Bits64P
import Secp.Proofs.FieldP
import Secp.Hand.Field
import Secp.Proofs.CurveBridge
/-!
# The limb implementation generated from the Go code is a lawful implementation of `ZMod p`

`val a = eval(a) · R⁻¹` (Montgomery form), canonical = limbs below `2^64` and value below `p`.
Every law below is discharged from the limb-level theorems about the *generated* Fiat functions.
-/
open Spec

theorem Pnat_eq : Pnat = P := by decide
theorem W4_eq : W ^ 4 = 2 ^ 256 := by decide

def RinvP : Fp := ((2 ^ 256 : Nat) : Fp)⁻¹

theorem R_ne_zero : ((2 ^ 256 : Nat) : Fp) ≠ 0 := by
  intro h
  rw [ZMod.natCast_eq_zero_iff] at h
  have hp : Nat.Prime P := Fact.out
  have := hp.dvd_of_dvd_pow h
  have : P ≤ 2 := Nat.le_of_dvd (by norm_num) this
  exact absurd this (by decide)

theorem R_mul_Rinv : ((2 ^ 256 : Nat) : Fp) * RinvP = 1 := mul_inv_cancel₀ R_ne_zero

def limbOk (a : L4) : Prop := a.ok ∧ a.eval < P
def limbVal (a : L4) : Fp := (a.eval : Fp) * RinvP

theorem eval_inj (a b : L4) (ha : a.ok) (hb : b.ok) (h : a.eval = b.eval) : a = b := by
  obtain ⟨a0, a1, a2, a3⟩ := ha
  obtain ⟨b0, b1, b2, b3⟩ := hb
  unfold L4.eval at h
  have hW : W = 2^64 := rfl
  cases a; cases b
  simp only [L4.mk.injEq] at *
  simp only [hW] at *
  omega

theorem limbVal_inj {a b : L4} (ha : limbOk a) (hb : limbOk b) (h : limbVal a = limbVal b) : a = b := by
  unfold limbVal at h
  have hR : RinvP ≠ 0 := inv_ne_zero R_ne_zero
  have h' := mul_right_cancel₀ hR h
  rw [ZMod.natCast_eq_natCast_iff'] at h'
  rw [Nat.mod_eq_of_lt ha.2, Nat.mod_eq_of_lt hb.2] at h'
  exact eval_inj a b ha.1 hb.1 h'

theorem cast_mod_P (k : Nat) : ((k % P : Nat) : Fp) = (k : Fp) := ZMod.natCast_mod k P

theorem limb_add {a b : L4} (ha : limbOk a) (hb : limbOk b) :
    limbOk (FiatField.add a b) ∧ limbVal (FiatField.add a b) = limbVal a + limbVal b := by
  obtain ⟨ok, ev⟩ := fieldAdd_correct a b ha.1 hb.1 (by rw [Pnat_eq]; exact ha.2) (by rw [Pnat_eq]; exact hb.2)
  rw [Pnat_eq] at ev
  refine ⟨⟨ok, by rw [ev]; exact Nat.mod_lt _ (by decide)⟩, ?_⟩
  unfold limbVal
  rw [ev, cast_mod_P, Nat.cast_add]; ring

theorem limb_sub {a b : L4} (ha : limbOk a) (hb : limbOk b) :
    limbOk (FiatField.sub a b) ∧ limbVal (FiatField.sub a b) = limbVal a - limbVal b := by
  obtain ⟨ok, ev⟩ := fieldSub_correct a b ha.1 hb.1 (by rw [Pnat_eq]; exact ha.2) (by rw [Pnat_eq]; exact hb.2)
  rw [Pnat_eq] at ev
  refine ⟨⟨ok, by rw [ev]; exact Nat.mod_lt _ (by decide)⟩, ?_⟩
  unfold limbVal
  have hle : b.eval ≤ a.eval + P := by have := hb.2; omega
  rw [ev, cast_mod_P, Nat.cast_sub hle, Nat.cast_add, ZMod.natCast_self]; ring

theorem limb_neg {a : L4} (ha : limbOk a) :
    limbOk (FiatField.opp a) ∧ limbVal (FiatField.opp a) = - limbVal a := by
  obtain ⟨ok, ev⟩ := fieldOpp_correct a ha.1 (by rw [Pnat_eq]; exact ha.2)
  rw [Pnat_eq] at ev
  refine ⟨⟨ok, by rw [ev]; exact Nat.mod_lt _ (by decide)⟩, ?_⟩
  unfold limbVal
  have hle : a.eval ≤ P := Nat.le_of_lt ha.2
  rw [ev, cast_mod_P, Nat.cast_sub hle, ZMod.natCast_self]; ring

theorem mont_val (o x y : Nat) (h : (o * W ^ 4) % P = (x * y) % P) :
    (o : Fp) * RinvP = ((x : Fp) * RinvP) * ((y : Fp) * RinvP) := by
  have h' : ((o * W ^ 4 : Nat) : Fp) = ((x * y : Nat) : Fp) := by
    rw [ZMod.natCast_eq_natCast_iff']; exact h
  rw [W4_eq, Nat.cast_mul, Nat.cast_mul] at h'
  have : (o : Fp) = (x : Fp) * (y : Fp) * RinvP := by
    have := congrArg (fun t => t * RinvP) h'
    simp only [mul_assoc, R_mul_Rinv, mul_one] at this
    rw [this]; ring
  rw [this]; ring

theorem limb_mul {a b : L4} (ha : limbOk a) (hb : limbOk b) :
    limbOk (FiatField.mul a b) ∧ limbVal (FiatField.mul a b) = limbVal a * limbVal b := by
  obtain ⟨ok, lt, ev⟩ := fieldMul_correct a b ha.1 hb.1 (by rw [Pnat_eq]; exact hb.2)
  rw [Pnat_eq] at ev lt
  exact ⟨⟨ok, lt⟩, mont_val _ _ _ ev⟩

theorem limb_square {a : L4} (ha : limbOk a) :
    limbOk (FiatField.square a) ∧ limbVal (FiatField.square a) = limbVal a * limbVal a := by
  obtain ⟨ok, lt, ev⟩ := fieldSquare_correct a ha.1 (by rw [Pnat_eq]; exact ha.2)
  rw [Pnat_eq] at ev lt
  exact ⟨⟨ok, lt⟩, mont_val _ _ _ ev⟩

theorem limbVal_eq_zero {a : L4} (ha : limbOk a) : limbVal a = 0 ↔ a = ⟨0, 0, 0, 0⟩ := by
  have hz : limbOk ⟨0, 0, 0, 0⟩ := ⟨⟨W_pos, W_pos, W_pos, W_pos⟩, by decide⟩
  have hv : limbVal ⟨0, 0, 0, 0⟩ = 0 := by unfold limbVal; simp [L4.eval]
  constructor
  · intro h; exact limbVal_inj ha hz (by rw [h, hv])
  · rintro rfl; exact hv

/-- **the limb implementation is lawful** -/
def limbLawful : Lawful Hand.limbOps Fp where
  ok := limbOk
  val := limbVal
  val_inj := limbVal_inj
  ok_zero := ⟨⟨W_pos, W_pos, W_pos, W_pos⟩, by decide⟩
  val_zero := by unfold limbVal; simp [Hand.limbOps, L4.eval]
  ok_one := ⟨by decide, by decide⟩
  val_one := by
    show limbVal FiatField.setOne = 1
    unfold limbVal
    have : (FiatField.setOne.eval : Fp) = ((2 ^ 256 : Nat) : Fp) := by
      rw [ZMod.natCast_eq_natCast_iff']; decide
    rw [this, R_mul_Rinv]
  ok_add := fun ha hb => (limb_add ha hb).1
  val_add := fun ha hb => (limb_add ha hb).2
  ok_sub := fun ha hb => (limb_sub ha hb).1
  val_sub := fun ha hb => (limb_sub ha hb).2
  ok_mul := fun ha hb => (limb_mul ha hb).1
  val_mul := fun ha hb => (limb_mul ha hb).2
  ok_neg := fun ha => (limb_neg ha).1
  val_neg := fun ha => (limb_neg ha).2
  ok_square := fun ha => (limb_square ha).1
  val_square := fun ha => (limb_square ha).2
  cmove_zero := fun hu hv => by
    show FiatField.selectznz 0 _ _ = _
    rw [selectznz_spec_p 0 (by omega) _ _ hu.1 hv.1]; rfl
  cmove_one := fun hu hv => by
    show FiatField.selectznz 1 _ _ = _
    rw [selectznz_spec_p 1 (by omega) _ _ hu.1 hv.1]; rfl
  isZero_of_eq := fun {a} ha h => by
    show FiatField.isZero (FiatField.nonzero a) = 1
    rw [isZeroL4_spec a ha.1, if_pos ((limbVal_eq_zero ha).mp h)]
  isZero_of_ne := fun {a} ha h => by
    show FiatField.isZero (FiatField.nonzero a) = 0
    rw [isZeroL4_spec a ha.1, if_neg (fun e => h ((limbVal_eq_zero ha).mpr e))]
  equals_of_eq := fun {a b} ha hb h => by
    show FiatField.equals a b = 1
    rw [equals_spec a b ha.1 hb.1, if_pos (limbVal_inj ha hb h)]
  equals_of_ne := fun {a b} ha hb h => by
    show FiatField.equals a b = 0
    rw [equals_spec a b ha.1 hb.1, if_neg (fun e => h (by rw [e]))]

/-- the Montgomery constants embedded in the curve code denote 21 and 7 -/
theorem limb_curveConsts : CurveConsts limbLawful where
  ok_b3 := ⟨by decide, by decide⟩
  val_b3 := by
    show limbVal ⟨90194333733, 0, 0, 0⟩ = 21
    unfold limbVal
    have : ((⟨90194333733, 0, 0, 0⟩ : L4).eval : Fp) = ((21 * 2 ^ 256 : Nat) : Fp) := by
      rw [ZMod.natCast_eq_natCast_iff']; decide
    rw [this, Nat.cast_mul, mul_assoc, R_mul_Rinv]; simp
  ok_b := ⟨by decide, by decide⟩
  val_b := by
    show limbVal ⟨30064777911, 0, 0, 0⟩ = 7
    unfold limbVal
    have : ((⟨30064777911, 0, 0, 0⟩ : L4).eval : Fp) = ((7 * 2 ^ 256 : Nat) : Fp) := by
      rw [ZMod.natCast_eq_natCast_iff']; decide
    rw [this, Nat.cast_mul, mul_assoc, R_mul_Rinv]; simp

/-- limbs holding the Montgomery form of `v` denote `v` -/
theorem limbVal_of_mont (a : L4) (v : Nat) (h : a.eval = v * 2 ^ 256 % P) : limbVal a = (v : Fp) := by
  unfold limbVal
  rw [h, cast_mod_P, Nat.cast_mul, mul_assoc, R_mul_Rinv, mul_one]

