import Secp.Proofs.IsoIdentity
import Secp.Proofs.Fermat
import Secp.Proofs.CurveBridge
import Secp.Gen.Curve
/-!
# The generated `IsogenySecp256k13iso` is the RFC 9380 E.1 rational map (zero denominator ↦ identity)
-/
open Spec Spec.Rfc9380

variable {α : Type} {F : FieldOps α} (L : Lawful F Fp)

/-- the thirteen Montgomery constants of the isogeny denote the RFC's `k_(i,j)` -/
structure IsoConsts : Prop where
  ok10 : L.ok (F.ofMont 253880346804 0 0 0)
  v10 : L.val (F.ofMont 253880346804 0 0 0) = (k10 : Fp)
  ok11 : L.ok (F.ofMont 15401556054675218246 3224699913824136141 5815130584626317824 16947662544290920057)
  v11 : L.val (F.ofMont 15401556054675218246 3224699913824136141 5815130584626317824 16947662544290920057) = (k11 : Fp)
  ok12 : L.ok (F.ofMont 5242624389536649661 6503044766135799011 13715044361241875287 702316956669180165)
  v12 : L.val (F.ofMont 5242624389536649661 6503044766135799011 13715044361241875287 702316956669180165) = (k12 : Fp)
  ok13 : L.ok (F.ofMont 477218697 0 0 0)
  v13 : L.val (F.ofMont 477218697 0 0 0) = (k13 : Fp)
  ok20 : L.ok (F.ofMont 10013643957699995642 13279921378413469365 9434573195234168324 14865030926825602763)
  v20 : L.val (F.ofMont 10013643957699995642 13279921378413469365 9434573195234168324 14865030926825602763) = (k20 : Fp)
  ok21 : L.ok (F.ofMont 10290131358410743717 3187170674093536253 12754934808919567890 6320852610022621491)
  v21 : L.val (F.ofMont 10290131358410743717 3187170674093536253 12754934808919567890 6320852610022621491) = (k21 : Fp)
  ok30 : L.ok (F.ofMont 18446743860074648259 18446744073709551615 18446744073709551615 18446744073709551615)
  v30 : L.val (F.ofMont 18446743860074648259 18446744073709551615 18446744073709551615 18446744073709551615) = (k30 : Fp)
  ok31 : L.ok (F.ofMont 13429969373273428526 5674984992785315314 2875401403253613739 12950111799174569234)
  v31 : L.val (F.ofMont 13429969373273428526 5674984992785315314 2875401403253613739 12950111799174569234) = (k31 : Fp)
  ok32 : L.ok (F.ofMont 11844684229475616502 12474894419922675313 16080894217475713451 9574530515189365890)
  v32 : L.val (F.ofMont 11844684229475616502 12474894419922675313 16080894217475713451 9574530515189365890) = (k32 : Fp)
  ok33 : L.ok (F.ofMont 159072899 0 0 0)
  v33 : L.val (F.ofMont 159072899 0 0 0) = (k33 : Fp)
  ok40 : L.ok (F.ofMont 18446740822418568955 18446744073709551615 18446744073709551615 18446744073709551615)
  v40 : L.val (F.ofMont 18446740822418568955 18446744073709551615 18446744073709551615 18446744073709551615) = (k40 : Fp)
  ok41 : L.ok (F.ofMont 11594187807980371856 2946275987821304864 9856975511992953358 7701604633057705058)
  v41 : L.val (F.ofMont 11594187807980371856 2946275987821304864 9856975511992953358 7701604633057705058) = (k41 : Fp)
  ok42 : L.ok (F.ofMont 6211825002908823904 4780756011140304380 9909030176524576027 257906878179156429)
  v42 : L.val (F.ofMont 6211825002908823904 4780756011140304380 9909030176524576027 257906878179156429) = (k42 : Fp)

/-- inversion by the generated chain in any lawful record over `ZMod p` -/
theorem L_invert {a : α} (ha : L.ok a) : L.ok (FieldChains.invert F a) ∧ L.val (FieldChains.invert F a) = (L.val a)⁻¹ := by
  obtain ⟨ok, v⟩ := fieldInvert_pow L a ha
  exact ⟨ok, by rw [← zmod_pow_sub_two P (by decide) (L.val a)]; exact v⟩

theorem lor_bits (a b : Nat) (ha : a = 0 ∨ a = 1) (hb : b = 0 ∨ b = 1) :
    Nat.lor a b = if a = 0 ∧ b = 0 then 0 else 1 := by
  rcases ha with rfl | rfl <;> rcases hb with rfl | rfl <;> decide

/-- structured reference for the generated isogeny: the four polynomials, then the output stage -/
def isoXNum (F : FieldOps α) (x : α) : α :=
  F.add (F.add (F.add (F.mul (F.ofMont 477218697 0 0 0) (F.mul (F.square x) x))
    (F.mul (F.ofMont 5242624389536649661 6503044766135799011 13715044361241875287 702316956669180165) (F.square x)))
    (F.mul (F.ofMont 15401556054675218246 3224699913824136141 5815130584626317824 16947662544290920057) x))
    (F.ofMont 253880346804 0 0 0)
def isoXDen (F : FieldOps α) (x : α) : α :=
  F.add (F.add (F.square x)
    (F.mul (F.ofMont 10290131358410743717 3187170674093536253 12754934808919567890 6320852610022621491) x))
    (F.ofMont 10013643957699995642 13279921378413469365 9434573195234168324 14865030926825602763)
def isoYNum (F : FieldOps α) (x : α) : α :=
  F.add (F.add (F.add (F.mul (F.ofMont 159072899 0 0 0) (F.mul (F.square x) x))
    (F.mul (F.ofMont 11844684229475616502 12474894419922675313 16080894217475713451 9574530515189365890) (F.square x)))
    (F.mul (F.ofMont 13429969373273428526 5674984992785315314 2875401403253613739 12950111799174569234) x))
    (F.ofMont 18446743860074648259 18446744073709551615 18446744073709551615 18446744073709551615)
def isoYDen (F : FieldOps α) (x : α) : α :=
  F.add (F.add (F.add (F.mul (F.square x) x)
    (F.mul (F.ofMont 6211825002908823904 4780756011140304380 9909030176524576027 257906878179156429) (F.square x)))
    (F.mul (F.ofMont 11594187807980371856 2946275987821304864 9856975511992953358 7701604633057705058) x))
    (F.ofMont 18446740822418568955 18446744073709551615 18446744073709551615 18446744073709551615)

def isoOut (F : FieldOps α) (xn xd yn yd y : α) : Pt α :=
  let v25 := FieldChains.invert F xd
  let c38 := Nat.lor (F.isZero v25) (F.isZero yd)
  let v40 := FieldChains.invert F yd
  ⟨F.cmove c38 (F.mul xn v25) F.zero, F.cmove c38 (F.mul (F.mul y yn) v40) F.one, F.cmove c38 F.one F.zero⟩

/-- the generated function is the structured reference (definitional) -/
theorem isogeny_tie (e : Pt α) :
    Curve.isogeny F e = isoOut F (isoXNum F e.x) (isoXDen F e.x) (isoYNum F e.x) (isoYDen F e.x) e.y := rfl

theorem isoXNum_spec (hk : IsoConsts L) {x : α} (hx : L.ok x) :
    L.ok (isoXNum F x) ∧ L.val (isoXNum F x) = xNumF (L.val x) := by
  have o14 := L.ok_square hx
  have o15 := L.ok_mul o14 hx
  have o16 := L.ok_mul hk.ok13 o15
  have o17 := L.ok_mul hk.ok12 o14
  have o18 := L.ok_mul hk.ok11 hx
  have o19 := L.ok_add o16 o17
  have o20 := L.ok_add o19 o18
  refine ⟨L.ok_add o20 hk.ok10, ?_⟩
  unfold isoXNum xNumF
  rw [L.val_add o20 hk.ok10, L.val_add o19 o18, L.val_add o16 o17, L.val_mul hk.ok13 o15, L.val_mul hk.ok12 o14,
    L.val_mul hk.ok11 hx, L.val_mul o14 hx, L.val_square hx, hk.v10, hk.v11, hk.v12, hk.v13]
  ring

theorem isoXDen_spec (hk : IsoConsts L) {x : α} (hx : L.ok x) :
    L.ok (isoXDen F x) ∧ L.val (isoXDen F x) = xDenF (L.val x) := by
  have o14 := L.ok_square hx
  have o22 := L.ok_mul hk.ok21 hx
  have o23 := L.ok_add o14 o22
  refine ⟨L.ok_add o23 hk.ok20, ?_⟩
  unfold isoXDen xDenF
  rw [L.val_add o23 hk.ok20, L.val_add o14 o22, L.val_mul hk.ok21 hx, L.val_square hx, hk.v20, hk.v21]
  ring

theorem isoYNum_spec (hk : IsoConsts L) {x : α} (hx : L.ok x) :
    L.ok (isoYNum F x) ∧ L.val (isoYNum F x) = yNumF (L.val x) := by
  have o14 := L.ok_square hx
  have o15 := L.ok_mul o14 hx
  have o27 := L.ok_mul hk.ok33 o15
  have o28 := L.ok_mul hk.ok32 o14
  have o29 := L.ok_mul hk.ok31 hx
  have o30 := L.ok_add o27 o28
  have o31 := L.ok_add o30 o29
  refine ⟨L.ok_add o31 hk.ok30, ?_⟩
  unfold isoYNum yNumF
  rw [L.val_add o31 hk.ok30, L.val_add o30 o29, L.val_add o27 o28, L.val_mul hk.ok33 o15, L.val_mul hk.ok32 o14,
    L.val_mul hk.ok31 hx, L.val_mul o14 hx, L.val_square hx, hk.v30, hk.v31, hk.v32, hk.v33]
  ring

theorem isoYDen_spec (hk : IsoConsts L) {x : α} (hx : L.ok x) :
    L.ok (isoYDen F x) ∧ L.val (isoYDen F x) = yDenF (L.val x) := by
  have o14 := L.ok_square hx
  have o15 := L.ok_mul o14 hx
  have o33 := L.ok_mul hk.ok42 o14
  have o34 := L.ok_mul hk.ok41 hx
  have o35 := L.ok_add o15 o33
  have o36 := L.ok_add o35 o34
  refine ⟨L.ok_add o36 hk.ok40, ?_⟩
  unfold isoYDen yDenF
  rw [L.val_add o36 hk.ok40, L.val_add o35 o34, L.val_add o15 o33, L.val_mul hk.ok42 o14, L.val_mul hk.ok41 hx,
    L.val_mul o14 hx, L.val_square hx, hk.v40, hk.v41, hk.v42]
  ring

/-- the output stage on arbitrary canonical numerators/denominators -/
theorem isoOut_spec (xn xd yn yd y : α) (hxn : L.ok xn) (hxd : L.ok xd) (hyn : L.ok yn) (hyd : L.ok yd) (hy : L.ok y) :
    PtOk L (isoOut F xn xd yn yd y) ∧
    ((L.val xd = 0 ∨ L.val yd = 0) → isoOut F xn xd yn yd y = ⟨F.zero, F.one, F.zero⟩) ∧
    (L.val xd ≠ 0 → L.val yd ≠ 0 →
        L.val (isoOut F xn xd yn yd y).x = L.val xn / L.val xd ∧
        L.val (isoOut F xn xd yn yd y).y = L.val y * (L.val yn / L.val yd) ∧
        (isoOut F xn xd yn yd y).z = F.one) := by
  obtain ⟨o25, e25⟩ := L_invert L hxd
  obtain ⟨o40, e40⟩ := L_invert L hyd
  have o41 := L.ok_mul hxn o25
  have o42 := L.ok_mul hy hyn
  have o43 := L.ok_mul o42 o40
  have b26 := L.isZero_bit o25
  have b39 := L.isZero_bit hyd
  unfold isoOut
  simp only
  rw [lor_bits _ _ b26 b39]
  by_cases hd : L.val xd = 0 ∨ L.val yd = 0
  · have hc : ¬ (F.isZero (FieldChains.invert F xd) = 0 ∧ F.isZero yd = 0) := by
      rintro ⟨h1, h2⟩
      rcases hd with h | h
      · have : F.isZero (FieldChains.invert F xd) = 1 := L.isZero_of_eq o25 (by rw [e25, h, inv_zero])
        omega
      · have : F.isZero yd = 1 := L.isZero_of_eq hyd h
        omega
    rw [if_neg hc, L.cmove_one o41 L.ok_zero, L.cmove_one o43 L.ok_one, L.cmove_one L.ok_one L.ok_zero]
    refine ⟨⟨L.ok_zero, L.ok_one, L.ok_zero⟩, fun _ => rfl, fun h1 h2 => ?_⟩
    rcases hd with h | h
    · exact absurd h h1
    · exact absurd h h2
  · have hd1 : L.val xd ≠ 0 := fun h => hd (Or.inl h)
    have hd2 : L.val yd ≠ 0 := fun h => hd (Or.inr h)
    have hc : F.isZero (FieldChains.invert F xd) = 0 ∧ F.isZero yd = 0 :=
      ⟨L.isZero_of_ne o25 (by rw [e25]; exact inv_ne_zero hd1), L.isZero_of_ne hyd hd2⟩
    rw [if_pos hc, L.cmove_zero o41 L.ok_zero, L.cmove_zero o43 L.ok_one, L.cmove_zero L.ok_one L.ok_zero]
    refine ⟨⟨o41, o43, L.ok_one⟩, fun h => absurd h hd, fun _ _ => ⟨?_, ?_, rfl⟩⟩
    · rw [L.val_mul hxn o25, e25]; rfl
    · rw [L.val_mul o42 o40, L.val_mul hy hyn, e40]; ring

/-- **the generated isogeny is the E.1 rational map**, with the identity for a vanishing denominator -/
theorem isogeny_spec (hk : IsoConsts L) (e : Pt α) (hx : L.ok e.x) (hy : L.ok e.y) :
    PtOk L (Curve.isogeny F e) ∧
    ((xDenF (L.val e.x) = 0 ∨ yDenF (L.val e.x) = 0) → Curve.isogeny F e = ⟨F.zero, F.one, F.zero⟩) ∧
    (xDenF (L.val e.x) ≠ 0 → yDenF (L.val e.x) ≠ 0 →
        L.val (Curve.isogeny F e).x = xNumF (L.val e.x) / xDenF (L.val e.x) ∧
        L.val (Curve.isogeny F e).y = L.val e.y * (yNumF (L.val e.x) / yDenF (L.val e.x)) ∧
        (Curve.isogeny F e).z = F.one) := by
  obtain ⟨oxn, vxn⟩ := isoXNum_spec L hk hx
  obtain ⟨oxd, vxd⟩ := isoXDen_spec L hk hx
  obtain ⟨oyn, vyn⟩ := isoYNum_spec L hk hx
  obtain ⟨oyd, vyd⟩ := isoYDen_spec L hk hx
  have h := isoOut_spec L _ _ _ _ _ oxn oxd oyn oyd hy
  rw [vxn, vxd, vyn, vyd] at h
  rw [isogeny_tie]
  exact h
