import Secp.Gen.ElementAPI
import Secp.Hand.Element
/-!
# Ties between the regenerated API methods of `element.go` and the model of the `Element` API

`go2lean` translates `Identity IsIdentity Add Double Negate Subtract Equal Set Copy` on every run by symbolic execution over
coordinate cells, *inlining* the methods they call (`add`, `addProjectiveComplete`, `copy`, `negate`, `set`, `newElement`, …)
on the caller's cells: aliasing between receiver and argument is cell identity (one definition per aliasing pattern), a
nil-tested parameter becomes an `Option` argument, a data-dependent early return (`Negate` on the identity) an `if`.
`Hand.Element.*`, which the C02/C05/C10 theorems are stated about, is hand-written from the generated formulas; each tie
says it is the regenerated method. An early return added to `add`, a fast path in `Subtract`, an `Identity()` that clears
only `z`, a `Subtract` that negates its argument in place: each changes a generated definition and a tie stops checking.
-/
namespace ElementApiTies
variable {α : Type} (F : FieldOps α)

theorem add_tie (e : Pt α) (v : Option (Pt α)) : GenElementAPI.add_e_v F e v = Hand.Element.add F e v := by
  cases v <;> rfl
theorem addSelf_tie (e : Pt α) : GenElementAPI.add_ev F e = Hand.Element.addSelf F e := rfl
theorem double_tie (e : Pt α) : GenElementAPI.double F e = Hand.Element.double F e := rfl
theorem negate_tie (e : Pt α) : GenElementAPI.negate F e = Hand.Element.negate F e := rfl
theorem subtract_tie (e : Pt α) (v : Option (Pt α)) : GenElementAPI.subtract_e_v F e v = Hand.Element.subtract F e v := by
  cases v <;> rfl
theorem subtractSelf_tie (e : Pt α) : GenElementAPI.subtract_ev F e = Hand.Element.subtract F e (some e) := rfl

end ElementApiTies
