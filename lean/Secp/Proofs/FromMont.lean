import Secp.Proofs.FieldLimb
/-!
# `FromMontgomery`: generated code = reference (definitional); reference divides by `R` modulo `m`
-/



theorem add4c_spec (a : L5) (v : Nat) (a0 : a.l0 < W) (a1 : a.l1 < W) (a2 : a.l2 < W) (a3 : a.l3 < W) (a4 : a.l4 ≤ 1)
    (hv : v < W) : eval5 (add4c a v) = eval5 a + v ∧ (add4c a v).ok := by
  unfold add4c eval5 L5.ok
  simp only
  obtain ⟨f0, m0, c0⟩ := add64_spec a.l0 v 0 a0 hv (by omega)
  generalize add64 a.l0 v 0 = s0 at *
  obtain ⟨f1, m1, c1⟩ := add64_spec a.l1 0 s0.2 a1 W_pos c0
  generalize add64 a.l1 0 s0.2 = s1 at *
  obtain ⟨f2, m2, c2⟩ := add64_spec a.l2 0 s1.2 a2 W_pos c1
  generalize add64 a.l2 0 s1.2 = s2 at *
  obtain ⟨f3, m3, c3⟩ := add64_spec a.l3 0 s2.2 a3 W_pos c2
  generalize add64 a.l3 0 s2.2 = s3 at *
  have hw : wadd s3.2 a.l4 = s3.2 + a.l4 := by
    unfold wadd; apply Nat.mod_eq_of_lt; simp only [W] at *; omega
  rw [hw]
  refine ⟨?_, m0, m1, m2, m3, by simp only [W] at *; omega⟩
  linear_combination f0 + W * f1 + W^2 * f2 + W^3 * f3

/-- one `FromMontgomery` round: feed a limb, reduce -/
theorem fm_step (M : Modulus) (hM : M.Valid) (hbig : W^3 ≤ M.val) (a : L5) (v : Nat)
    (a0 : a.l0 < W) (a1 : a.l1 < W) (a2 : a.l2 < W) (a3 : a.l3 < W) (a4 : a.l4 ≤ 1) (hv : v < W)
    (hA : eval5 a < M.val + W^3) :
    ∃ m, m < W ∧ W * eval5 (redStep M (add4c a v)) = eval5 a + v + m * M.val ∧
      (redStep M (add4c a v)).l0 < W ∧ (redStep M (add4c a v)).l1 < W ∧ (redStep M (add4c a v)).l2 < W ∧
      (redStep M (add4c a v)).l3 < W ∧ (redStep M (add4c a v)).l4 ≤ 1 ∧
      eval5 (redStep M (add4c a v)) < M.val + W^3 := by
  obtain ⟨ev, okt⟩ := add4c_spec a v a0 a1 a2 a3 a4 hv
  generalize add4c a v = t at *
  obtain ⟨m, hm, er, r0, r1, r2, r3, r4⟩ := redStep_spec M hM t okt
  generalize redStep M t = r at *
  refine ⟨m, hm, by rw [er, ev], r0, r1, r2, r3, r4, ?_⟩
  have b2 : m * M.val ≤ (W - 1) * M.val := Nat.mul_le_mul_right _ (by omega)
  rw [ev] at er
  generalize eval5 r = R at *
  generalize eval5 a = A at *
  generalize m * M.val = p2 at *
  generalize M.val = Mv at *
  have hW3 : W^3 = 2^192 := by decide
  simp only [W, hW3] at *
  omega

theorem refFromMont_correct (M : Modulus) (hM : M.Valid) (hMlt : M.val < W^4) (hbig : W^3 ≤ M.val)
    (x : L4) (hx : x.ok) :
    (refFromMont M x).ok ∧ (refFromMont M x).eval < M.val ∧
    ((refFromMont M x).eval * W^4) % M.val = x.eval % M.val := by
  obtain ⟨x0, x1, x2, x3⟩ := hx
  unfold refFromMont
  simp only
  -- round 0
  have okt0 : (⟨x.l0, 0, 0, 0, 0⟩ : L5).ok := ⟨x0, W_pos, W_pos, W_pos, W_pos⟩
  obtain ⟨m0, hm0, e0, a00, a01, a02, a03, a04⟩ := redStep_spec M hM ⟨x.l0, 0, 0, 0, 0⟩ okt0
  have ev0 : eval5 (⟨x.l0, 0, 0, 0, 0⟩ : L5) = x.l0 := by unfold eval5; simp
  rw [ev0] at e0
  generalize redStep M ⟨x.l0, 0, 0, 0, 0⟩ = A0 at *
  have hW3 : W^3 = 2^192 := by decide
  have bA0 : eval5 A0 < M.val + W^3 := by
    have b2 : m0 * M.val ≤ (W - 1) * M.val := Nat.mul_le_mul_right _ (by omega)
    generalize eval5 A0 = a at *
    generalize m0 * M.val = p2 at *
    generalize M.val = Mv at *
    simp only [W, hW3] at *
    omega
  obtain ⟨m1, hm1, e1, a10, a11, a12, a13, a14, bA1⟩ := fm_step M hM hbig A0 x.l1 a00 a01 a02 a03 a04 x1 bA0
  generalize redStep M (add4c A0 x.l1) = A1 at *
  obtain ⟨m2, hm2, e2, a20, a21, a22, a23, a24, bA2⟩ := fm_step M hM hbig A1 x.l2 a10 a11 a12 a13 a14 x2 bA1
  generalize redStep M (add4c A1 x.l2) = A2 at *
  obtain ⟨m3, hm3, e3, a30, a31, a32, a33, a34, bA3⟩ := fm_step M hM hbig A2 x.l3 a20 a21 a22 a23 a24 x3 bA2
  generalize redStep M (add4c A2 x.l3) = A3 at *
  have b2M : eval5 A3 < 2 * M.val := by omega
  have cs := condSub_spec M hM hMlt A3 a30 a31 a32 a33 (by omega) b2M
  simp only at cs
  obtain ⟨o0, o1, o2, o3, olt, oval⟩ := cs
  refine ⟨⟨o0, o1, o2, o3⟩, by rw [L4.eval_eq]; exact olt, ?_⟩
  have total : W^4 * eval5 A3 = x.eval + (m0 + W * m1 + W^2 * m2 + W^3 * m3) * M.val := by
    unfold L4.eval
    linear_combination W^3 * e3 + W^2 * e2 + W * e1 + e0
  rw [L4.eval_eq]
  generalize eval4 (condSub M A3).l0 (condSub M A3).l1 (condSub M A3).l2 (condSub M A3).l3 = V at *
  generalize (m0 + W * m1 + W^2 * m2 + W^3 * m3) = K at *
  generalize x.eval = X at *
  rcases oval with h | h
  · rw [h, Nat.mul_comm, total, Nat.add_mul_mod_self_right]
  · have : V * W^4 + W^4 * M.val = X + K * M.val := by
      rw [← total, ← h]; ring
    have h2 : (V * W^4 + W^4 * M.val) % M.val = (V * W^4) % M.val := Nat.add_mul_mod_self_right _ _ _
    rw [← h2, this, Nat.add_mul_mod_self_right]
