import Secp.Gen.ScalarAPI
import Secp.Hand.Scalar
import Secp.Proofs.ScalarErr
/-! # Ties: regenerated `LessOrEqual`, `CSelect` of `scalar.go` = the model (C13) -/
namespace ScalarApiTies
open Hand.Scalar

theorem lessOrEqual_tie (s t : L4) : GenScalarAPI.lessOrEqual s t = lessOrEqual s t := rfl


theorem cselect_tie (s : L4) (c : Nat) (u v : Option L4) :
    GenScalarAPI.cSelect s c u v = ((cselect s c u v).2, (cselect s c u v).1.map errName) := by
  cases u <;> cases v <;> rfl

end ScalarApiTies
