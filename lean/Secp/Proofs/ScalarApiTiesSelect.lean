import Secp.Gen.ScalarAPI
import Secp.Hand.Scalar
/-! # Ties: regenerated `LessOrEqual`, `CSelect` of `scalar.go` = the model (C13) -/
namespace ScalarApiTies
open Hand.Scalar

theorem lessOrEqual_tie (s t : L4) : GenScalarAPI.lessOrEqual s t = lessOrEqual s t := rfl

/-- the error a Go `error` value stands for -/
def errName : Err → String
  | .nilScalar => "errParamNilScalar" | .scalarLength => "errParamScalarLength"
  | .scalarTooBig => "errParamScalarTooBig" | .hexError => "hexError"

theorem cselect_tie (s : L4) (c : Nat) (u v : Option L4) :
    GenScalarAPI.cSelect s c u v = ((cselect s c u v).2, (cselect s c u v).1.map errName) := by
  cases u <;> cases v <;> rfl

end ScalarApiTies
