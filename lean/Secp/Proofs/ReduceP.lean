import Secp.Proofs.Reduce
import Secp.Proofs.ToMontP
/-! # `Reduce`: the base-field instances (regenerated `FiatField` code) -/

theorem reduce_tie_p (x : L4) : FiatField.reduce x = refReduce Mp x := by
  unfold FiatField.reduce refReduce Mp; rfl

theorem fieldReduce_correct (x : L4) (hx : x.ok) :
    (FiatField.reduce x).1.ok ∧ (FiatField.reduce x).1.eval = x.eval % Pnat ∧
    (FiatField.reduce x).2 = (if x.eval < Pnat then 1 else 0) := by
  rw [reduce_tie_p, ← Mp_val]
  exact refReduce_correct Mp Mp_valid Mp_lt (by decide) x hx
